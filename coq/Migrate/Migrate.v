(** Model of walletdb/migration/manager.go (GetLatestVersion, VersionsToApply,
    upgrade, Upgrade) and of the way its callers wrap it in a database
    transaction (wallet/wallet.go OpenWithRetry).

    The upgrade is a sequence of WRITES on the working copy of a read/write
    transaction: every migration is a state transformer that may fail midway,
    having already written ([MFail id] writes effect [id], then returns an
    error); [SetVersion] is a write too (and may fail).  Nothing in
    [upgrade_one] / [upgrade_all] undoes a write: what makes "a failed upgrade
    leaves the database unchanged" true is the ENCLOSING transaction
    ([call_in_update]: walletdb.Update commits the working copy iff its closure
    returned nil, property C11), and only if
      (a) the whole Upgrade(...) call runs inside ONE such transaction, and
      (b) every error reaches that transaction: the migration's error is
          returned by [upgrade], the manager's error by [Upgrade], and
          Upgrade's error by the closure handed to walletdb.Update.
    (a) and (b) are not assumed: they are fields of [code], regenerated from
    the source into Generated/MigrateFacts.v (lib/extract_c19.py), and the
    model says what happens when one of them is false.

    The "data" of a service's namespace is abstracted to the log of effects
    migrations have applied to it ([MOk id] appends [id]); this is exactly what
    the harness' instrumented migrations do to the real bucket. *)
From Verif Require Import Base.Prelude.
From Verif Require Generated.MigrateFacts.

Inductive mig :=
| MNil                (* Version.Migration == nil: skipped, still counted *)
| MOk (id : N)        (* succeeds, effect [id] on the namespace           *)
| MFail (id : N).     (* writes effect [id], then returns an error        *)

Record version := { num : N; vmig : mig }.

(** [GetLatestVersion]: maximum number, 0 for the empty table. *)
Definition latest (vs : list version) : N :=
  fold_right (fun v m => N.max (num v) m) 0%N vs.

(** Stable insertion sort by number ([sort.Slice] in the code; the order of
    entries with *equal* numbers is unspecified there). *)
Fixpoint insert (v : version) (l : list version) : list version :=
  match l with
  | [] => [v]
  | w :: l' => if (num v <? num w)%N then v :: l else w :: insert v l'
  end.
Definition sort (l : list version) : list version := fold_right insert [] l.

(** [VersionsToApply]. *)
Definition versions_to_apply (cur : N) (vs : list version) : list version :=
  sort (filter (fun v => (cur <? num v)%N) vs).

(** Database state of one service: stored version and namespace data. *)
Record db := { stored : N; data : list N }.

Inductive outcome := Ok | ErrReversion | ErrMigration (n : N) | ErrSetVersion.
Definition is_ok (o : outcome) : bool := match o with Ok => true | _ => false end.

(** What the atomicity of an upgrade depends on in the code (see the head of
    this file).  [false] = the error is dropped / the call is made once per
    pending version in transactions of their own. *)
Record code := {
  mig_error_returned : bool;   (* upgrade: `if err != nil { return err }` after version.Migration(ns) *)
  setv_error_returned : bool;  (* upgrade: the error of mgr.SetVersion is returned                    *)
  mgr_error_returned : bool;   (* Upgrade: `if err := upgrade(mgr); err != nil { return err }`         *)
  one_update : bool;           (* call sites: the function's single Upgrade(...) call sits inside ONE
                                  walletdb.Update closure, no loop around either                       *)
  update_gets_error : bool     (* call sites: that closure returns Upgrade's error                     *)
}.

(** A service as [Upgrade] sees it: its version table and whether its
    SetVersion fails (a failing Put writes nothing). *)
Record mgr := { table : list version; setv_fails : bool }.

(** The two writes. *)
Definition put_effect (id : N) (w : db) : db := {| stored := stored w; data := data w ++ [id] |}.
Definition set_version (v : N) (w : db) : db := {| stored := v; data := data w |}.

(** The migration loop of [upgrade] on the working copy [w]: log of
    migrations *invoked* (nil ones are skipped), working copy afterwards, the
    failing version number if the loop returned early.  [ret = false]: the
    error is not returned, the loop goes on. *)
Fixpoint run_migs (ret : bool) (l : list version) (w : db) : list N * db * option N :=
  match l with
  | [] => ([], w, None)
  | v :: l' =>
    match vmig v with
    | MNil => run_migs ret l' w
    | MOk id =>
      let '(inv, w', e) := run_migs ret l' (put_effect id w) in (num v :: inv, w', e)
    | MFail id =>
      if ret then ([num v], put_effect id w, Some (num v))
      else let '(inv, w', e) := run_migs ret l' (put_effect id w) in (num v :: inv, w', e)
    end
  end.

(** [upgrade(mgr)] on the working copy: result, working copy, invoked numbers. *)
Definition upgrade_one (c : code) (m : mgr) (w : db) : outcome * db * list N :=
  let l := latest (table m) in
  if (l <? stored w)%N then (ErrReversion, w, [])
  else if (stored w <? l)%N then
    let '(inv, w', e) := run_migs (mig_error_returned c) (versions_to_apply (stored w) (table m)) w in
    match e with
    | Some n => (ErrMigration n, w', inv)
    | None =>
      if setv_fails m
      then ((if setv_error_returned c then ErrSetVersion else Ok), w', inv)
      else (Ok, set_version l w', inv)
    end
  else (Ok, w, []).

(** [Upgrade(mgrs...)] on the working copies of the services' namespaces. *)
Fixpoint upgrade_all (c : code) (l : list (mgr * db)) : outcome * list db * list (list N) :=
  match l with
  | [] => (Ok, [], [])
  | (m, w) :: l' =>
    let '(o, w', inv) := upgrade_one c m w in
    if is_ok o || negb (mgr_error_returned c) then
      let '(o', ws, invs) := upgrade_all c l' in (o', w' :: ws, inv :: invs)
    else (o, w' :: map snd l', inv :: map (fun _ => []) l')
  end.

(** ** The enclosing transaction

    [walletdb.Update(db, closure)]: the closure runs on a working copy of the
    committed state; the copy is committed iff the closure returned nil and
    dropped otherwise (this all-or-nothing behaviour of Update is property
    C11; KV/KV.v [update]).  The closure returns Upgrade's result if
    [update_gets_error], nil otherwise.  First component: what
    migration.Upgrade returned; second: the COMMITTED state afterwards. *)
Definition call_in_update (c : code) (ms : list mgr) (committed : list db)
  : outcome * list db * list (list N) :=
  let '(o, working, invs) := upgrade_all c (combine ms committed) in
  (o, if is_ok o || negb (update_gets_error c) then working else committed, invs).

(** [one_update = false]: the caller runs Upgrade once per service and per
    pending version (the version table cut off at that version), each call in
    an Update of its own - every completed migration is committed at once. *)
Definition trim (k : N) (m : mgr) : mgr :=
  {| table := filter (fun v => (num v <=? k)%N) (table m); setv_fails := setv_fails m |}.

Definition one_mgr_update (c : code) (m : mgr) (s : db) : outcome * db * list N :=
  let '(o, w, inv) := upgrade_one c m s in
  (o, if is_ok o || negb (update_gets_error c) then w else s, inv).

Fixpoint per_version (c : code) (m : mgr) (ks : list N) (s : db) : outcome * db * list N :=
  match ks with
  | [] => (Ok, s, [])
  | k :: ks' =>
    let '(o, s', inv) := one_mgr_update c (trim k m) s in
    if is_ok o then let '(o', s'', inv') := per_version c m ks' s' in (o', s'', inv ++ inv')
    else (o, s', inv)
  end.

Definition mgr_separately (c : code) (m : mgr) (s : db) : outcome * db * list N :=
  match map num (versions_to_apply (stored s) (table m)) with
  | [] => one_mgr_update c m s
  | ks => per_version c m ks s
  end.

Fixpoint all_separately (c : code) (l : list (mgr * db)) : outcome * list db * list (list N) :=
  match l with
  | [] => (Ok, [], [])
  | (m, s) :: l' =>
    let '(o, s', inv) := mgr_separately c m s in
    if is_ok o then let '(o', ss, invs) := all_separately c l' in (o', s' :: ss, inv :: invs)
    else (o, s' :: map snd l', inv :: map (fun _ => []) l')
  end.

(** The upgrade as a caller performs it: Upgrade's result, the committed
    state of every service afterwards, the migrations invoked per service. *)
Definition open_upgrade (c : code) (ms : list mgr) (committed : list db)
  : outcome * list db * list (list N) :=
  if one_update c then call_in_update c ms committed
  else all_separately c (combine ms committed).

(** One service. *)
Definition upgrade (c : code) (m : mgr) (s : db) : outcome * db * list N :=
  match open_upgrade c [m] [s] with
  | (o, [s'], [inv]) => (o, s', inv)
  | (o, _, _) => (o, s, [])
  end.

(** ** The code as it is: facts regenerated from the repository's source. *)
Definition repo_code : code :=
  {| mig_error_returned := MigrateFacts.mig_error_returned;
     setv_error_returned := MigrateFacts.setv_error_returned;
     mgr_error_returned := MigrateFacts.mgr_error_returned;
     one_update := MigrateFacts.one_update;
     update_gets_error := MigrateFacts.update_gets_error |}.

(** migration.Upgrade as it is, called by the harness inside ONE walletdb.Update
    whose closure returns the error (the harness' own closure, not a call site
    of the repository). *)
Definition harness_code : code :=
  {| mig_error_returned := MigrateFacts.mig_error_returned;
     setv_error_returned := MigrateFacts.setv_error_returned;
     mgr_error_returned := MigrateFacts.mgr_error_returned;
     one_update := true;
     update_gets_error := true |}.

Definition plain (vs : list version) : mgr := {| table := vs; setv_fails := false |}.
